#!/usr/bin/env python3
"""Re-runs every registered check (quick and thorough) against a scratch copy of /repo with each kept seeded change
applied (VERIF_REPO), and updates seeded/<id>/meta.json: `detected_first` keeps the matrix of the first evaluation
(before any check was strengthened), `detected_now` is the current one.  16 jobs in parallel; scratch copies live under
/var/tmp and are removed."""
import concurrent.futures as cf
import glob
import json
import os
import shutil
import subprocess
import sys
import tempfile

VERIF = os.path.dirname(os.path.dirname(os.path.abspath(__file__)))
PY = "/venv/bin/python"

NEEDS = {
    "C01-A": "non-symmetric matrix in LinSolve; response+sensitivity, then a different matrix, then response+sensitivity again on the same module (stale adjoint database)",
    "C01-B": "an aggregation (KS/PNorm/SoftMinMax) constructed with an AggActiveSet that actually discards entries",
    "C02-A": "sparse-matrix (DyadCarrier) sensitivities; one adjoint object handed to two inputs of which one is also consumed by a later-backpropagating module",
    "C02-B": "a (nested) Network seeded only on an intermediate signal that another module of the same network consumes",
    "C03-A": "sparse EigenSolve with eigenvector seeds, partial seeding (one mode per pass), two design iterations",
    "C03-B": "second response() of a LinSolve whose matrix gained a coupling on a previously decoupled dof (same shape)",
    "C04-A": "sensitivity() called twice without reset on an OverhangFilter (float64 seed)",
    "C04-B": "FilterConv with a non-zero constant-valued padding / override",
    "C05-A": "complex, non-symmetric, non-Hermitian matrix with a decoupled dof whose diagonal is non-real; solve with trans T or H through LDAWrapper",
    "C05-B": "CG.solve with an initial guess x0 whose residual is much larger than |b|",
    "C06-A": "non-symmetric matrix; adjoint solve, update(A2), two further adjoint solves",
    "C06-B": "same as C05-A (cached un-conjugated diagonal used in adjoint mode)",
    "C07-A": "non-symmetric matrix with Dirichlet rows (row replaced, column kept) and non-zero prescribed value",
    "C07-B": "LinSolve with CG, block right-hand side, second response() where one column is unchanged (warm start)",
    "C08-A": "2-D domain with unitz != 1 and a second module built with the same (E, nu, plane) in one process",
    "C08-B": "bc given and bcdiagval == 0 (explicit, or AssembleMass default)",
    "C09-A": "FilterConv with a user kernel that is not mirror-symmetric",
    "C09-B": "a second DensityFilter in the same process on a different-shaped domain with equal element count and radius",
    "C10-A": "several variable signals with a scalar listed after an array",
    "C10-B": "asymptote offset below the move limit (oscillating history or asyinit <= move)",
    "C11-A": "sparse generalised problem with sigma != 0",
    "C11-B": "dense Hermitian problem with Fortran-ordered input arrays",
    "C12-A": "same as C08-A",
    "C12-B": "3-D domain with unitz != 1 in ThermoMechanical",
    "C13-A": "shape-function derivatives evaluated on an element face / edge / corner",
    "C13-B": "3-D grid with nelx != nely",
    "C14-A": "print direction given as a string with the sign after the axis letter ('y-')",
    "C14-B": "3-D domain whose cross-section orthogonal to the print direction is not square",
    "C15-A": "real DyadCarrier; conj() followed by an in-place operation on the result",
    "C15-B": "badly scaled (|u| < 1e-8) but non-zero dyads",
    "C16-A": "n*fraction with fractional part >= 0.5",
    "C16-B": "soft minimum (alpha < 0) on widely spread data (|alpha|*(max-min) > 709)",
    "C17-A": "bounds with xmax - xmin > 1",
    "C17-B": "explicit maxvol far from the initial volume",
    "C18-A": "scalar signal whose first contribution is a 0-d array, then a second accumulation / shared object",
    "C18-B": "a slice of a slice (nested SignalSlice)",
    "C19-A": "complex input whose back-propagated sensitivity is a plain Python complex",
    "C19-B": "input given as a SignalSlice with index-array / mask indexing",
    "C20-A": "scale != 1 and at least two writes on the same domain",
    "C20-B": "the log file already exists when iteration 0 is written",
    "R2-C01-A": "FilterConv.override_values(index, value) called after construction (override never entered in the sensitivity mask)",
    "R2-C01-B": "an aggregation with an AggActiveSet that discards entries (derivative normalised over all entries)",
    "R2-C02-A": "partial seeding: every terminal output of a (sub)network unseeded while an internal signal carries a seed",
    "R2-C02-B": "a module that returns a view of the sensitivity it received (np.real(dz), dY.T) plus a second contribution to the same source",
    "R2-C03-A": "sparse EigenSolve, eigenvector seeds on different modes in successive sensitivities, one without a new response",
    "R2-C03-B": "LinSolve reused for a matrix whose set of decoupled dofs shrinks (void strip, then solid)",
    "R2-C04-A": "two sensitivity() calls between resets on Strain / Stress / ElementAverage",
    "R2-C04-B": "FilterConv with a non-zero constant padding or override value",
    "R2-C05-A": "dense Hermitian indefinite Fortran-ordered matrix whose Cholesky attempt fails part-way (LDL fall-back on overwritten data)",
    "R2-C05-B": "matrix with a dof coupled purely skew-symmetrically (A_ij = -A_ji), e.g. gyroscopic terms",
    "R2-C06-A": "reused wrapper: symmetric matrix, then a structurally non-symmetric one (triangular / arrow)",
    "R2-C06-B": "complex non-symmetric non-Hermitian matrix, decoupled dof with non-real diagonal, trans T or H",
    "R2-C07-A": "non-symmetric matrix with Dirichlet rows replaced (row decoupled, column not) and non-zero prescribed value",
    "R2-C07-B": "SystemOfEquations with an unsorted dof partition and non-uniform loads / prescribed values",
    "R2-C08-A": "2-D domain with unitz != 1 and a second module with the same material in one process",
    "R2-C08-B": "AssembleGeneral with a non-symmetric Fortran-ordered (or transposed-view) element matrix",
    "R2-C09-A": "numeric padding value on xmin/xmax (2-D/3-D) or ymin/ymax (3-D) with x[0] != value",
    "R2-C09-B": "non-integer filter radius with a lattice offset between int(r) and r",
    "R2-C10-A": "several variable signals with a scalar listed after an array",
    "R2-C10-B": "an active constraint whose multiplier exceeds 1",
    "R2-C11-A": "real symmetric problem with a sorting function that is not the identity permutation (descending order)",
    "R2-C11-B": "sparse path with a strictly negative shift sigma",
    "R2-C12-A": "element operator with two or more leading dimensions, shape (a, b, K)",
    "R2-C12-B": "same as R2-C08-A (thermal load vs stiffness)",
    "R2-C13-A": "two domains with permuted element counts (nelx x nely and nely x nelx) and equal ndof in one process",
    "R2-C13-B": "shape-function derivatives evaluated on an element face / edge / corner",
    "R2-C14-A": "an entirely void supporting layer (floating block, design detached from the base plate)",
    "R2-C14-B": "negative print direction as a string with the sign after the axis letter ('y-')",
    "R2-C15-A": "complex vector with sum(u_i^2) == 0 exactly, e.g. [1, 1j]",
    "R2-C15-B": "symmetric dyad (v omitted or same array) followed by row / column zeroing d[idx, :] = 0",
    "R2-C16-A": "AggScaling with damping > 0 and at least two response() calls",
    "R2-C16-B": "lower_amt / upper_amt with tied values at the cut-off position",
    "R2-C17-A": "three or more variable signals",
    "R2-C17-B": "explicit maxvol far from the starting volume with a small move limit",
    "R2-C18-A": "slice of a rank >= 2 signal whose tuple index is all integers or contains an integer array",
    "R2-C18-B": "nested basic slice with from-the-end (negative) bounds",
    "R2-C19-A": "tosig holding a square scipy sparse matrix (AssembleMass / AssembleStiffness)",
    "R2-C19-B": "Network with fromsig the base signal, an earlier module reading a slice of it and a later one the full signal",
    "R2-C20-A": "scale != 1 and a second write on the same domain",
    "R2-C20-B": "multi-valued signal whose state is a reversed or transposed view",
    "R3-C01-A": "dense EigenSolve, eigenvalue output unseeded, eigenvector seed with zero rows (one dof of all modes)",
    "R3-C01-B": "AssembleGeneral with a non-symmetric element matrix and a dense non-symmetric seed on the sparse output",
    "R3-C02-A": "one module using the identical Signal object twice with different index roles (x^T A x, non-symmetric A)",
    "R3-C02-B": "Network.append after the network has run sensitivity() once",
    "R3-C03-A": "sparse matrix updated in place on the same scipy object, second response()",
    "R3-C03-B": "SystemOfEquations: pass seeding x, reset, pass seeding only b",
    "R3-C04-A": "aggregation with damped AggScaling, two responses, then two or more sensitivity() calls",
    "R3-C04-B": "LinSolve seed whose entries sum to exactly 0 (e_i - e_j)",
    "R3-C05-A": "CG with a block right-hand side whose columns differ strongly in magnitude",
    "R3-C05-B": "dense symmetric indefinite matrix whose LDL factorisation takes a 2x2 pivot without row interchange",
    "R3-C06-A": "badly scaled matrix (1e-9 or 1e9) with dependent right-hand sides",
    "R3-C06-B": "matrix with a zero diagonal entry whose row and column hold exactly one off-diagonal coupling",
    "R3-C07-A": "non-symmetric (or complex Hermitian) matrix given to StaticCondensation",
    "R3-C07-B": "one solver instance: first an indefinite matrix (Cholesky fails), then a positive-definite one",
    "R3-C08-A": "bc given, complex scaling vector x, real element matrix",
    "R3-C08-B": "3-D AssemblePoisson with material_property != 1",
    "R3-C09-A": "strip-like domain with int(radius) > min(nelx, nely)",
    "R3-C09-B": "'wrap' padding on exactly one side of an axis",
    "R3-C10-A": "sub-problems where Newton overshoots a barrier level by more than 10x (checked through the KKT residual)",
    "R3-C10-B": "single design signal whose sensitivity buffer is reused in place (sliced or pre-allocated)",
    "R3-C11-A": "sparse generalised problem solved in buckling mode",
    "R3-C11-B": "eigenvector with an exactly zero mean entry (two-mass oscillator)",
    "R3-C12-A": "2-D domain with unitz != 1 and two modules with the same material",
    "R3-C12-B": "two Strain/Stress modules on domains of equal dimension but different element sizes",
    "R3-C13-A": "write_to_vti(scale != 1) followed by geometry queries",
    "R3-C13-B": "evaluation point given as an integer array",
    "R3-C14-A": "3-D domain with nsampling = 9 and material on the face where the second in-layer index is 0",
    "R3-C14-B": "second evaluation of the same OverhangFilter with a different base layer",
    "R3-C15-A": "contract_multi, then d[idx, :] = 0, then contract_multi again",
    "R3-C15-B": "dyad with real u and complex v (d * c, d @ B)",
    "R3-C16-A": "data of small magnitude (1e-9) or small relative spread",
    "R3-C16-B": "m.p changed on an existing PNorm (continuation)",
    "R3-C17-A": "three or more variable signals with an empty one in the middle",
    "R3-C17-B": "exactly one variable that is a basic slice of a 1-D float64 signal",
    "R3-C18-A": "full slice s[:] / s[...] with the base sensitivity still None and a scalar / row / real-on-complex first contribution",
    "R3-C18-B": "a view of other entries of the same base assigned to a slice (s[5:10].state = s[0:5].state[::-1])",
    "R3-C19-A": "Network with two or more tosig signals produced by different modules",
    "R3-C19-B": "complex-typed input with non-zero entries whose imaginary part is exactly 0",
    "R3-C20-A": "WriteToVTI with saveto without '.vti' and overwrite=False",
    "R3-C20-B": "point data given as a column-wise block vector of shape (n, nvec)",
    "R4-C01-A": "SoftMinMax with a scaling strategy (scale factor != 1)",
    "R4-C01-B": "sparse EigenSolve: seed mode 1, new state, seed only mode 0, reset, seed only mode 1 without a new response",
    "R4-C02-A": "nested / flat network with only a non-terminal output seeded",
    "R4-C02-B": "2-D signal consumed through a slice that combines a basic slice with an index list on a later axis",
    "R4-C03-A": "sparse EigenSolve with partial seeding over several seed/sensitivity rounds per response",
    "R4-C03-B": "SystemOfEquations: a pass seeding b, then a later cycle seeding only the state output",
    "R4-C04-A": "two sensitivity() calls between resets on an ElementOperation-type module",
    "R4-C04-B": "sparse EigenSolve, eigenvector seed that is non-positive with an exact zero (g(-w))",
    "R4-C05-A": "one CG instance: update(A1), solve(T|H), update(A2), solve(T|H)",
    "R4-C05-B": "complex non-symmetric non-Hermitian matrix, decoupled dof with non-real diagonal, trans T or H",
    "R4-C06-A": "same as R4-C05-B",
    "R4-C06-B": "non-symmetric matrix; T/H solve, update(A2), two further T/H solves",
    "R4-C07-A": "same LinSolve evaluated twice, a dof decoupled in call 1 and coupled in call 2",
    "R4-C07-B": "dense complex-symmetric (not Hermitian) matrix with symmetric=True",
    "R4-C08-A": "2-D domain with unitz != 1 and a second module with the same material",
    "R4-C08-B": "bc given and x of a wider type than the element matrix (complex x, or float x with integer element matrix)",
    "R4-C09-A": "numeric boundary value on x (or y in 3-D) different from x[0] with padding in a later direction",
    "R4-C09-B": "second DensityFilter with the same radius and element count but a different grid shape",
    "R4-C10-A": "exactly one design signal with a pre-allocated sensitivity array",
    "R4-C10-B": "per-signal lower bounds, an array-valued signal, non-zero lower bound",
    "R4-C11-A": "complex Hermitian problem (sesquilinear vs bilinear normalisation)",
    "R4-C11-B": "sparse Hermitian pencil with the shift inside the spectrum",
    "R4-C12-A": "2-D domain with unitz != 1 and a second module with the same material",
    "R4-C12-B": "element operator whose leading dimensions have product > 1",
    "R4-C13-A": "grid with nnodes <= 255 but (nnodes-1)*ndof > 255 (or the 65535 threshold)",
    "R4-C13-B": "evaluation point on an element face / edge / node",
    "R4-C14-A": "at least 3 layers and non-zero density on the boundary row the first support offset does not reach",
    "R4-C14-B": "negative print direction with unsupported material in the final layer",
    "R4-C15-A": "symmetric dyad (v omitted or same array) followed by zeroing rows only or columns only",
    "R4-C15-B": "complex vector with zero sum of squares ([1, 1j])",
    "R4-C16-A": "lower_amt / upper_amt with duplicated values straddling the cut position",
    "R4-C16-B": "negative rho with positive data of wide range (|rho|*(max-min) > 709)",
    "R4-C17-A": "a design variable passed as an advanced-index sliced signal",
    "R4-C17-B": "explicit maxvol not reachable within the move limits in the first iterations",
    "R4-C18-A": "rank >= 2 signal, index tuple with a basic slice before an integer array",
    "R4-C18-B": "one retained slice object used across a base reset",
    "R4-C19-A": "a module whose _sensitivity returns None for an input the output depends on",
    "R4-C19-B": "Network, fromsig the base signal, first consumer takes a slice, a later module the full signal",
    "R4-C20-A": "2-D block-vector input whose first axis is the node / element axis (column-wise block)",
    "R4-C20-B": "logged array signal that is not C-contiguous",
}


def run_one(d):
    sid = os.path.basename(d.rstrip("/"))
    tmp = tempfile.mkdtemp(prefix="pmlint_seed_", dir="/var/tmp")
    try:
        subprocess.run(["git", "-C", "/repo", "worktree", "add", "-q", "--detach", os.path.join(tmp, "wt"), "HEAD"], check=True)
        wt = os.path.join(tmp, "wt")
        r = subprocess.run(["git", "-C", wt, "apply", "--whitespace=nowarn", os.path.join(d, "patch.diff")], capture_output=True, text=True)
        if r.returncode:
            return sid, None, "patch does not apply: " + r.stderr[-200:]
        det = {}
        checks = json.load(open(os.path.join(VERIF, "MANIFEST.json")))["checks"]
        env = dict(os.environ, VERIF_REPO=wt, PMLINT_EVIDENCE_DIR=os.path.join(tmp, "ev"))
        target_only = "--target-only" in sys.argv
        target = json.load(open(os.path.join(d, "meta.json"))).get("property")
        for c in checks:
            p = c["property_id"]
            if target_only and p != target:
                continue
            for tier in ("quick", "thorough"):
                rr = subprocess.run([PY, "-m", "pmlint", "check", p, "--tier", tier], cwd=VERIF, env=env, capture_output=True, text=True)
                if rr.returncode != 0:
                    rules = sorted({ln.split()[1] for ln in rr.stdout.split("\n") if ln.startswith("pymoto/") and len(ln.split()) > 1})
                    det.setdefault(p, {})[tier] = {"exit": rr.returncode, "rules": rules}
        return sid, det, ""
    finally:
        subprocess.run(["git", "-C", "/repo", "worktree", "remove", "--force", os.path.join(tmp, "wt")], capture_output=True)
        shutil.rmtree(tmp, ignore_errors=True)


def main():
    dirs = sorted(glob.glob(os.path.join(VERIF, "seeded", "*/")))
    with cf.ThreadPoolExecutor(max_workers=14) as ex:
        for sid, det, err in ex.map(run_one, dirs):
            mp = os.path.join(VERIF, "seeded", sid, "meta.json")
            meta = json.load(open(mp))
            if "detected_first" not in meta:
                meta["detected_first"] = meta.pop("detected_by", {})
                meta.pop("detected_for_property", None)
            meta["breaks_property"] = meta["property"]
            meta["needs_to_manifest"] = NEEDS.get(sid, meta.get("needs_to_manifest", ""))
            if det is None:
                meta["detected_now_error"] = err
            else:
                if "--target-only" in sys.argv:
                    # only the target property's checks were run: keep what the last full run recorded for the others
                    prev = dict(meta.get("detected_now", {}))
                    prev.pop(meta["property"], None)
                    prev.update(det)
                    det = prev
                meta["detected_now"] = det
                meta["detected_now_for_property"] = {t: (meta["property"] in det and t in det[meta["property"]]) for t in ("quick", "thorough")}
            json.dump(meta, open(mp, "w"), indent=1)
            tgt = det.get(meta["property"], {}) if det else {}
            print(sid, "target:", ("PATCH-DOES-NOT-APPLY " + err) if det is None else ({t: v["rules"] for t, v in tgt.items()} or "MISSED"),
                  "| others:", sorted(set(det or {}) - {meta["property"]}))


if __name__ == "__main__":
    main()
