#!/usr/bin/env python3
"""Re-bases the stored seeded patches that no longer apply to /repo HEAD (the repository moved on through fix:
commits): 3-way apply in a scratch worktree, then the patch is regenerated from the result.  The original is kept as
patch.orig.diff; meta.json records the new base."""
import glob, json, os, subprocess, tempfile, shutil, sys
VERIF = os.path.dirname(os.path.dirname(os.path.abspath(__file__)))
head = subprocess.run(["git", "-C", "/repo", "rev-parse", "--short", "HEAD"], capture_output=True, text=True).stdout.strip()
for d in sorted(glob.glob(os.path.join(VERIF, "seeded", "*/"))):
    sid = os.path.basename(d.rstrip("/"))
    tmp = tempfile.mkdtemp(prefix="pmlint_rb_", dir="/var/tmp")
    wt = os.path.join(tmp, "wt")
    try:
        subprocess.run(["git", "-C", "/repo", "worktree", "add", "-q", "--detach", wt, "HEAD"], check=True)
        p = os.path.join(d, "patch.diff")
        if subprocess.run(["git", "-C", wt, "apply", "--check", "--whitespace=nowarn", p], capture_output=True).returncode == 0:
            continue
        r = subprocess.run(["git", "-C", wt, "apply", "--3way", "--whitespace=nowarn", p], capture_output=True, text=True)
        st = subprocess.run(["git", "-C", wt, "diff", "--name-only", "--diff-filter=U"], capture_output=True, text=True).stdout.strip()
        if r.returncode or st:
            print(sid, "CONFLICT", r.stderr.strip()[-200:], st)
            continue
        subprocess.run(["git", "-C", wt, "reset", "-q"], check=True)
        new = subprocess.run(["git", "-C", wt, "diff", "--", "pymoto"], capture_output=True).stdout
        if not os.path.exists(os.path.join(d, "patch.orig.diff")):
            shutil.copy(p, os.path.join(d, "patch.orig.diff"))
        open(p, "wb").write(new)
        m = json.load(open(os.path.join(d, "meta.json")))
        m["rebased_onto"] = head
        json.dump(m, open(os.path.join(d, "meta.json"), "w"), indent=1)
        print(sid, "rebased onto", head)
    finally:
        subprocess.run(["git", "-C", "/repo", "worktree", "remove", "--force", wt], capture_output=True)
        shutil.rmtree(tmp, ignore_errors=True)
