#!/usr/bin/env python3
"""Confirms behaviour-preserving refactorings produced by independent sub-agents and records whether any check raises an
alarm on them (the complement of tools/eval_seeded.py: here every alarm is a FALSE alarm of the machinery).

usage: eval_refactor.py <candidate dir> <id> <property> [--skip-tests]
Steps (scratch worktree of /repo HEAD under /var/tmp, removed afterwards): demo passes on HEAD; patch applies; demo
passes with the patch and prints the same fingerprint lines; package byte-compiles; the baseline tests still pass;
every registered check (quick and thorough) is run against the patched worktree: all must exit 0.
Writes /verif/refactorings/<id>/{patch.diff,demo.py,notes.md,meta.json}."""
import json
import os
import shutil
import subprocess
import sys
import xml.etree.ElementTree as ET

VERIF = os.path.dirname(os.path.dirname(os.path.abspath(__file__)))
PY = "/venv/bin/python"
ENV1 = dict(os.environ, OMP_NUM_THREADS="1", OPENBLAS_NUM_THREADS="1", MKL_NUM_THREADS="1")


def sh(cmd, cwd=None, env=None, timeout=3000):
    r = subprocess.run(cmd, cwd=cwd, env=env, capture_output=True, text=True, timeout=timeout)
    return r.returncode, r.stdout + r.stderr


def baseline_missing(junit):
    base = set(json.load(open("/root/.vp/BASELINE.json"))["stable_pass"])
    passed = set()
    for tc in ET.parse(junit).getroot().iter("testcase"):
        if not any(ch.tag in ("failure", "error", "skipped") for ch in tc):
            passed.add(f"{tc.get('classname')}::{tc.get('name')}")
    return sorted(base - passed)


def main():
    cand, rid, prop = sys.argv[1], sys.argv[2], sys.argv[3]
    skip_tests = "--skip-tests" in sys.argv
    wt = f"/var/tmp/rfval/{rid}"
    os.makedirs("/var/tmp/rfval", exist_ok=True)
    sh(["git", "-C", "/repo", "worktree", "remove", "--force", wt])
    shutil.rmtree(wt, ignore_errors=True)
    rc, out = sh(["git", "-C", "/repo", "worktree", "add", "-q", "--detach", wt, "HEAD"])
    if rc:
        print(rid, "WORKTREE-FAIL", out)
        return 2
    meta = {"id": rid, "property": prop, "source": cand, "ran": []}
    try:
        meta["repo_head"] = sh(["git", "-C", wt, "rev-parse", "--short", "HEAD"])[1].strip()
        os.makedirs(os.path.join(wt, "_out", "X"), exist_ok=True)
        shutil.copy(os.path.join(cand, "demo.py"), os.path.join(wt, "_out", "X", "demo.py"))
        rc0, out0 = sh([PY, "_out/X/demo.py"], cwd=wt, env=ENV1, timeout=900)
        meta["ran"].append({"cmd": "demo.py on clean HEAD", "exit": rc0, "tail": out0[-300:]})
        rc, out = sh(["git", "-C", wt, "apply", "--whitespace=nowarn", os.path.join(cand, "patch.diff")])
        if rc:
            rc, out = sh(["git", "-C", wt, "apply", "--3way", "--whitespace=nowarn", os.path.join(cand, "patch.diff")])
            sh(["git", "-C", wt, "reset", "-q"])
        meta["ran"].append({"cmd": "git apply patch.diff", "exit": rc, "tail": out[-300:]})
        if rc:
            print(rid, "APPLY-FAIL")
            return 0
        rc1, out1 = sh([PY, "_out/X/demo.py"], cwd=wt, env=ENV1, timeout=900)
        meta["ran"].append({"cmd": "demo.py with patch", "exit": rc1, "tail": out1[-300:]})
        rcc, _ = sh([PY, "-m", "compileall", "-q", "pymoto"], cwd=wt)
        missing = None
        if not skip_tests:
            junit = os.path.join(wt, "_out", "X", "junit.xml")
            sh([PY, "-m", "pytest", "-q", "-p", "no:cacheprovider", "--timeout=900", "--continue-on-collection-errors", f"--junitxml={junit}"],
               cwd=wt, env=ENV1, timeout=3000)
            missing = baseline_missing(junit) if os.path.exists(junit) else ["<no junit>"]
            meta["ran"].append({"cmd": "pytest (baseline command) with patch", "baseline_tests_no_longer_passing": missing})
        confirmed = rc0 == 0 and rc1 == 0 and rcc == 0 and (skip_tests or not missing)
        meta["confirmed_behaviour_preserving"] = confirmed
        patch = subprocess.run(["git", "-C", wt, "diff", "--", "pymoto"], capture_output=True).stdout
        alarms = {}
        checks = json.load(open(os.path.join(VERIF, "MANIFEST.json")))["checks"]
        env = dict(os.environ, VERIF_REPO=wt, PMLINT_EVIDENCE_DIR=os.path.join(wt, "_out", "evidence"))
        # one pass over every rule (`pmlint sweep` gives the verdict `check <prop> --tier thorough` would give, per property)
        r, o = sh([PY, "-m", "pmlint", "sweep"], cwd=VERIF, env=env)
        cur = None
        for ln in o.split("\n"):
            if ln.startswith("PROP "):
                _, cur, ex = ln.split()
                if ex != "exit=0":
                    alarms[cur] = {"thorough": {"exit": int(ex.split("=")[1]), "lines": []}}
            elif ln.startswith("  ") and cur in alarms and len(alarms[cur]["thorough"]["lines"]) < 4:
                alarms[cur]["thorough"]["lines"].append(ln.strip()[:400])
        if "PROP C20" not in o:
            alarms["ENGINE"] = {"thorough": {"exit": r, "lines": o.strip().split("\n")[-3:]}}
        meta["alarms_first"] = alarms
        out = os.path.join(VERIF, "refactorings", rid)
        os.makedirs(out, exist_ok=True)
        open(os.path.join(out, "patch.diff"), "wb").write(patch)
        shutil.copy(os.path.join(cand, "demo.py"), os.path.join(out, "demo.py"))
        if os.path.exists(os.path.join(cand, "notes.md")):
            shutil.copy(os.path.join(cand, "notes.md"), os.path.join(out, "notes.md"))
        json.dump(meta, open(os.path.join(out, "meta.json"), "w"), indent=1)
        tag = "CONFIRMED" if confirmed else f"NOT-CONFIRMED(clean={rc0},patched={rc1},missing={missing})"
        if alarms:
            first = []
            for p, v in alarms.items():
                for t, d in v.items():
                    first.append(f"{p}/{t}:exit{d['exit']} {d['lines'][0][:230] if d['lines'] else ''}")
            print(rid, tag, "ALARMS:\n    " + "\n    ".join(first[:6]))
        else:
            print(rid, tag, "silent")
        return 0
    finally:
        sh(["git", "-C", "/repo", "worktree", "remove", "--force", wt])
        shutil.rmtree(wt, ignore_errors=True)


if __name__ == "__main__":
    sys.exit(main())
