#!/bin/bash
# Detection matrix: for every kept seeded change apply it to /repo, run the target property's quick and thorough check,
# undo it straight afterwards.  Prints one line per change.
cd /verif
for d in /verif/seeded/*/; do
  sid=$(basename $d); p=$(echo $sid | cut -d- -f1)
  git -C /repo apply --whitespace=nowarn ${d}patch.diff || { echo "$sid APPLY-FAIL"; continue; }
  q=$(PMLINT_EVIDENCE_DIR=/var/tmp/seedmatrix_ev /venv/bin/python -m pmlint check $p --tier quick); qe=$?
  t=$(PMLINT_EVIDENCE_DIR=/var/tmp/seedmatrix_ev /venv/bin/python -m pmlint check $p --tier thorough); te=$?
  git -C /repo checkout -- .
  rules=$(echo "$t" | grep '^pymoto/' | awk '{print $2}' | sort -u | tr '\n' ',')
  echo "$sid quick=$qe thorough=$te rules=$rules"
done
rm -rf /var/tmp/seedmatrix_ev
git -C /repo status --short | head -3
