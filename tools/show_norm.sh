#!/bin/bash
# usage: show_norm.sh <refactoring or seeded id> <function name fragment> [rule...]  -- normalised source as the rules see it
id=$1; frag=$2; shift 2
tmp=$(mktemp -d /var/tmp/pmlint_show_XXXX); trap 'rm -rf "$tmp"' EXIT
git -C /repo archive HEAD pymoto | tar -x -C "$tmp"
d=/verif/refactorings/$id; [ -d $d ] || d=/verif/seeded/$id
( cd "$tmp" && git init -q . && git apply --whitespace=nowarn $d/patch.diff )
cd /verif
VERIF_REPO=$tmp /venv/bin/python - "$frag" <<'PY'
import sys, ast
sys.path.insert(0,'/verif')
from pmlint.model import Model
m=Model()
frag=sys.argv[1]
for q,f in m.functions.items():
    if q.endswith(frag):
        print("#", q); print(ast.unparse(f.node)); print()
for c in m.classes.values():
    for name,defs in c.methods.items():
        for f in defs:
            if f.qual.endswith(frag) and m.functions.get(f.qual) is not f:
                print("#", f.qual, "(2nd def)"); print(ast.unparse(f.node)); print()
PY
for r in "$@"; do VERIF_REPO=$tmp /venv/bin/python -m pmlint rule $r | grep -v "^assume" | cut -c1-300; done
